"""E3/C13: the node's app configuration manager on a real temporary root.

One case = {'salt': int, 'ops': [op, ...]} interpreted by `NodeSim`:

  ['put', i, ok]     eventmgr caches the manifest of instance i (`EventMgr._cache`:
                     fs.write_safe + rename).  On an existing entry this is the
                     check_existing rewrite, which eventmgr only does before it
                     marks the cache ready, so it is skipped while .ready exists.
                     ok=0 marks the manifest unconfigurable (configure raises).
  ['del', i]         eventmgr unlinks cache/<instance> (`EventMgr._synchronize`).
  ['ready', b]       `EventMgr._cache_notify(b)`: create/rewrite or remove .ready.
  ['deliver', n]     the manager handles the next n queued directory events
                     (n >= 99: all of them).
  ['finish', i, k]   the running container of instance i ends on its own: the flag
                     file k (exitinfo | aborted | oom | pid1) is written and the
                     REAL monitor.MonitorContainerCleanup moves running/<instance>
                     to cleanup/<instance>.
  ['exit', i, k]     only the flag file is written (the tombstone comes later),
  ['tomb', i]        the tombstone of such a container is handled (dropped when the
                     running link no longer points at that container).
  ['cleanup', k]     the REAL cleanup.Cleanup.invoke completes the k-th outstanding
                     cleanup link (runtime.finish stubbed: removes the container).
  ['restart']        appcfgmgr process restart: new AppCfgMgr, queued events lost.
  ['reboot']         node restart: run_real.sh clears running/* and cleanup/*,
                     eventmgr removes .ready, new AppCfgMgr.

Directory events are queued in order exactly as inotify would queue them for
`dirwatch` (IN_CREATE/IN_MOVED_TO -> created, IN_DELETE -> deleted, IN_MODIFY ->
modified, identical consecutive events coalesced), including the deletions the
manager itself causes (`_configure` removes the event file on failure).  They are
delivered late (other operations happen in between) but never out of order.

Container names come from the real `appcfg.eventfile_unique_name`.  Only the
`os.stat` it sees is virtualised, by a model file system whose state travels in
the case: ['put', i, ok, reuse, dt_us] creates the cache file dt_us microseconds
after the previous one, on the inode freed last if `reuse` (ext4 hands freed
inode numbers out again) else on the next new one; both numbers are stored in the
cache file.  Names are therefore the same in every run of a case, the salt (first
inode number) varies them and with them the iteration order of the sets in
`_synchronize`.  gen_uniqueid keeps the inode and the low 13 bits of the ctime in
microseconds, so on ANY tree one inode-reusing re-creation in 8192 gets the name
of an earlier generation; the model steps over exactly those ctimes (+17 us,
counted) - that weakness is not claimed.  Containers are attributed to the
generation (harness counter) whose cache file they were first configured from,
never to a name: two generations that share a name show up as "running
container is not the one made from the current cache entry".
"""

import json
import os
import shutil
import tempfile

from pbt.run import Violation

from treadmill import appcfg
from treadmill import appcfgmgr
from treadmill import cleanup as tm_cleanup
from treadmill import context
from treadmill import eventmgr
from treadmill import exc
from treadmill import fs
from treadmill import monitor
from treadmill import supervisor
from treadmill import utils
from treadmill.appcfg import manifest as app_manifest

INSTANCES = [
    'proid.web#0000000007',
    'proid.web#0000000012',
    'proid.my-db#0000000003',
]

FLAGS = ('exitinfo', 'aborted', 'oom')
READY = eventmgr.READY_FILE


class HarnessError(BaseException):
    """The harness itself is inconsistent (never a property violation).
    BaseException: AppCfgMgr._configure swallows every Exception."""


class _VirtualStat(object):
    """What `appcfg.gen_uniqueid` reads from os.stat."""

    def __init__(self, ino, ctime):
        self.st_ino = ino
        self.st_ctime = ctime


class _OsProxy(object):
    """Stands in for the name `os` inside treadmill.appcfg only."""

    def __init__(self, sim):
        self._sim = sim
        self.path = os.path

    def stat(self, path):
        os.stat(path)  # raises exactly what production would see
        return self._sim.virtual_stat(path)

    def __getattr__(self, name):
        return getattr(os, name)


class _Runtime(object):
    """runtime_base.RuntimeBase.finish: _finish() then remove the container."""

    def __init__(self, container_dir):
        self._dir = container_dir

    def finish(self):
        shutil.rmtree(self._dir)


class NodeSim(object):
    """Interpreter of one case; oracles are applied after every step."""

    def __init__(self, case, stats):
        self.salt = int(case['salt'])
        self.ops = case['ops']
        self.stats = stats
        self.root = None
        self.mgr = None
        self.active = False
        self.queue = []          # [(kind, name)] kind in 'C', 'D', 'M'
        self.next_gen = 1
        # the file system under cache/: inode numbers are handed out in
        # sequence and REUSED (most recently freed first) when the case says
        # so; ctimes advance by a generated number of microseconds per put
        self.next_ino = 700001 + (self.salt * 7919) % 900001
        self.free_inos = []
        self.ino_of = {}         # instance -> inode of its current cache file
        self.clock_us = 0
        self.idents = {}         # instance -> [(gen, ino, ctime_us, name)]
        self.configured_gens = set()   # (instance, gen) configure was run for
        # container name -> (instance, generation), filled by the configure
        # stand-in (not by parsing names)
        self.registry = {}
        self.by_gen = {}         # (instance, gen) -> container name
        self.flagged = set()     # containers with exitinfo / aborted / oom
        self.dead = set()        # containers whose tombstone was handled
        self.handed = set()      # containers ever seen behind a cleanup link
        self.pending_tomb = {}   # instance -> container awaiting its tombstone
        self.two_generations = False
        self.sync_with_cleanup = False
        self.replaced_backlog = False
        self.name_collision = False
        self.late_created_flagless = False
        self.n_syncs = 0
        self._saved = []

    # -- set-up / tear-down ------------------------------------------------

    def __enter__(self):
        self.root = tempfile.mkdtemp(prefix='c13-', dir='/tmp')
        for name in ('cache', 'apps', 'running', 'cleanup', 'appevents'):
            os.mkdir(os.path.join(self.root, name))
        self._patch(appcfg, 'os', _OsProxy(self))
        self._patch(appcfgmgr.app_cfg, 'configure', self._configure)
        self._patch(supervisor, 'control_svscan', lambda *a, **kw: None)
        context.GLOBAL.cell = 'verifcell'
        context.GLOBAL.zk.url = 'zookeeper://foo@localhost:2181/treadmill'
        self._patch(tm_cleanup.app_runtime, 'get_runtime',
                    lambda _rt, _env, cdir, _param=None: _Runtime(cdir))
        self._new_manager()
        return self

    def __exit__(self, *_exc):
        for mod, name, old in reversed(self._saved):
            setattr(mod, name, old)
        shutil.rmtree(self.root, ignore_errors=True)
        return False

    def _patch(self, mod, name, new):
        self._saved.append((mod, name, getattr(mod, name)))
        setattr(mod, name, new)

    def _new_manager(self):
        self.mgr = appcfgmgr.AppCfgMgr(self.root, 'linux')
        self.active = False      # model: has this manager seen .ready?
        self.queue = []

    # -- paths -------------------------------------------------------------

    def _p(self, *parts):
        return os.path.join(self.root, *parts)

    # -- the virtual identity of a cache file ---------------------------------

    def _read_manifest(self, path):
        with open(path) as fh:
            return json.load(fh)

    def virtual_stat(self, path):
        manifest = self._read_manifest(path)
        return _VirtualStat(manifest['ino'],
                            1600000000.0 + manifest['ctime_us'] / 1e6)

    # -- stand-in for treadmill.appcfg.configure.configure ----------------------

    def _configure(self, tm_env, event, _runtime, _runtime_param=None):
        # configure(): the REAL appcfg.manifest.load builds the runtime
        # manifest from the cache file (the runtime class hook and the
        # features need entry points and are left out); the container is
        # named from that manifest exactly as configure() does
        try:
            manifest = self._read_manifest(event)
            loaded = None
            if manifest['ok'] or manifest['gen'] % 2 == 0:
                loaded = app_manifest.load(event)   # raises on invalid ones
        except IOError:
            return None                     # "File is gone. Nothing to do."
        instance = os.path.basename(event)
        if not manifest['ok']:
            raise exc.ContainerSetupError('cannot configure %s' % instance)
        uniq = appcfg.app_unique_name(utils.to_obj(loaded))
        container_dir = os.path.join(tm_env.apps_dir, uniq)
        existed = os.path.isdir(container_dir)
        fs.mkdir_safe(os.path.join(container_dir, 'data'))
        key = (instance, manifest['gen'])
        self.configured_gens.add(key)
        known = self.registry.get(uniq)
        if known is None or not existed:
            # a new container: it belongs to the generation it is made from
            self.registry[uniq] = key
            self.by_gen[key] = uniq
        elif known == key:
            self.by_gen[key] = uniq
        else:
            # configure ran on the directory of ANOTHER generation that has
            # the same name: the container stays what it was made from, the
            # new generation has no container of its own
            self.stats.count('configure_on_other_generations_container')
        self.stats.count('configured')
        return container_dir

    # -- observation ---------------------------------------------------------

    def cache(self):
        """instance -> manifest for every visible cache entry."""
        out = {}
        for name in sorted(os.listdir(self._p('cache'))):
            if not name.startswith('.'):
                out[name] = self._read_manifest(self._p('cache', name))
        return out

    def links(self, which):
        """link name -> container name it points to."""
        out = {}
        for name in sorted(os.listdir(self._p(which))):
            path = self._p(which, name)
            if os.path.islink(path):
                out[name] = os.path.basename(os.readlink(path))
        return out

    def containers(self):
        return sorted(os.listdir(self._p('apps')))

    def _describe(self):
        return 'cache=%s running=%s cleanup=%s apps=%s' % (
            {k: v['gen'] for k, v in self.cache().items()},
            self._pretty(self.links('running')),
            self._pretty(self.links('cleanup')),
            [self._tag(c) for c in self.containers()],
        )

    def _tag(self, container):
        inst, gen = self.registry.get(container, ('?', '?'))
        return '%s@g%s' % (inst, gen)

    def _pretty(self, links):
        return {('<container name>' if name in self.registry else name):
                self._tag(tgt) for name, tgt in links.items()}

    # -- oracles -------------------------------------------------------------

    def _check_links(self, ctx):
        """Every container is referenced by at most one link."""
        running = self.links('running')
        cleaning = self.links('cleanup')
        self.handed.update(cleaning.values())
        refs = {}
        for name, tgt in running.items():
            refs.setdefault(tgt, []).append('running/' + name)
        for name, tgt in cleaning.items():
            refs.setdefault(tgt, []).append(
                'cleanup/' + ('<container name>' if name in self.registry
                              else name))
        for tgt in sorted(refs):
            if len(refs[tgt]) < 2 or tgt not in self.registry:
                continue
            n_run = sum(1 for r in refs[tgt] if r.startswith('running/'))
            if n_run and len(refs[tgt]) > n_run:
                what = 'running-and-cleanup'
            elif n_run:
                what = 'two-running-links'
            else:
                what = 'two-cleanup-links'
            raise Violation(
                'c13.link.%s.%s' % (what, ctx),
                'container %s is referenced by %s; %s' % (
                    self._tag(tgt), refs[tgt], self._describe()))
        per_inst = {}
        for cont in self.containers():
            inst = self.registry[cont][0]
            per_inst[inst] = per_inst.get(inst, 0) + 1
        if any(cnt > 1 for cnt in per_inst.values()):
            self.two_generations = True

    def _check_not_restarted(self, before, ctx):
        """A finished / aborted / oom container is never started again."""
        for inst, cont in sorted(self.links('running').items()):
            if (cont in self.flagged or cont in self.dead) and \
                    before.get(inst) != cont:
                raise Violation(
                    'c13.restart.finished-restarted.%s' % ctx,
                    '%s %s and was linked into running again; %s' % (
                        self._tag(cont),
                        'finished/aborted/oom' if cont in self.flagged
                        else 'died (tombstone handled, no flag file)',
                        self._describe()))

    def _check_kept(self, before, ctx):
        """A running container whose manifest is unchanged is left running."""
        cache = self.cache()
        running = self.links('running')
        for inst, cont in sorted(before.items()):
            if cont in self.flagged or cont not in self.registry:
                continue
            gen = self.registry[cont][1]
            if inst in cache and cache[inst]['gen'] == gen and \
                    running.get(inst) != cont:
                raise Violation(
                    'c13.keep.unchanged-terminated.%s' % ctx,
                    '%s was running, its cache entry is unchanged, and it '
                    'is no longer running (running/%s -> %s); %s' % (
                        self._tag(cont), inst,
                        self._tag(running[inst]) if inst in running
                        else None, self._describe()))

    def _check_after_sync(self, handed_before):
        cache = self.cache()
        running = self.links('running')
        cleaning = self.links('cleanup')
        in_cleanup = set(cleaning.values())
        for inst in INSTANCES:
            tgt = running.get(inst)
            entry = cache.get(inst)
            if entry is None:
                if tgt is not None:
                    raise Violation(
                        'c13.sync.running-not-cached',
                        'running/%s -> %s but the instance is not in the '
                        'cache; %s' % (inst, self._tag(tgt),
                                       self._describe()))
                continue
            if not entry['ok']:
                if tgt is not None:
                    raise Violation(
                        'c13.sync.running-unconfigurable',
                        'running/%s exists for an unconfigurable manifest; %s'
                        % (inst, self._describe()))
                continue
            cur = self.by_gen.get((inst, entry['gen']))
            if tgt is not None and tgt != cur:
                raise Violation(
                    'c13.sync.running-stale-generation',
                    'running/%s -> %s but the cache holds generation %d; %s'
                    % (inst, self._tag(tgt), entry['gen'], self._describe()))
            if cur is not None and cur in self.flagged:
                # must not be started again (_check_not_restarted); may stay
                # linked until its tombstone is handled
                continue
            if cur is not None and cur in handed_before:
                continue    # given to cleanup earlier: either outcome is fine
            if tgt is None and cur is not None and cur in in_cleanup:
                raise Violation(
                    'c13.sync.current-generation-terminated',
                    '%s is what the cache asks for, is configurable, was not '
                    'in cleanup before, and the synchronisation handed it to '
                    'cleanup; %s' % (self._tag(cur), self._describe()))
            if tgt is None:
                raise Violation(
                    'c13.sync.cached-not-running',
                    '%s generation %d is cached and configurable but has no '
                    'running link after the synchronisation; %s' % (
                        inst, entry['gen'], self._describe()))
        for cont in self.containers():
            inst, gen = self.registry[cont]
            entry = cache.get(inst)
            if entry is not None and entry['gen'] == gen:
                continue
            if cont in in_cleanup or cont in running.values():
                continue    # running stale generations are reported above
            raise Violation(
                'c13.sync.orphan-not-in-cleanup',
                '%s has no cache entry any more and no cleanup link after '
                'the synchronisation; %s' % (self._tag(cont),
                                             self._describe()))

    def _check_quiescent(self):
        """Event quiescence: the queue is empty and the manager is active, so
        every cache change since the last synchronisation was handled by an
        active manager (it only becomes active again through a
        synchronisation, and a restart - the only way to lose events - makes
        it inactive).  The running links must then follow the cache; a cached
        instance without a running link is fine here (finished containers are
        not restarted, unconfigurable manifests never run)."""
        cache = self.cache()
        for inst, cont in sorted(self.links('running').items()):
            if cont not in self.registry:
                continue
            entry = cache.get(inst)
            if entry is None:
                raise Violation(
                    'c13.quiescent.running-not-cached',
                    'all events are handled, the manager is active, and '
                    'running/%s -> %s although the instance has no cache '
                    'entry; %s' % (inst, self._tag(cont), self._describe()))
            if entry['gen'] != self.registry[cont][1]:
                raise Violation(
                    'c13.quiescent.running-stale-generation',
                    'all events are handled, the manager is active, and '
                    'running/%s -> %s although the cache holds generation '
                    '%d; %s' % (inst, self._tag(cont), entry['gen'],
                                self._describe()))
        self.stats.count('quiescent_checks')

    def _check_after_create(self, inst, configured_before):
        """An active manager handled the last queued event of the instance, a
        'created', for a cache entry that is still there, can be configured and was never configured before: the
        instance runs the container made from that entry."""
        entry = self.cache().get(inst)
        if entry is None or not entry['ok'] or \
                (inst, entry['gen']) in configured_before:
            return
        cont = self.links('running').get(inst)
        if cont is None or self.registry.get(cont) != (inst, entry['gen']):
            raise Violation(
                'c13.create.not-configured',
                'the manager handled the created event of %s generation %d '
                '(never configured before, configurable) and running/%s -> '
                '%s; %s' % (inst, entry['gen'], inst,
                            self._tag(cont) if cont else None,
                            self._describe()))

    def _check_after_delete(self, inst, before):
        """An active manager handled 'deleted' and the entry is still gone."""
        cont = before.get(inst)
        if cont is None or inst in self.cache():
            return
        if self.links('running').get(inst) == cont or \
                cont not in self.links('cleanup').values():
            raise Violation(
                'c13.delete.not-handed-to-cleanup',
                '%s lost its cache entry, the manager handled the event, and '
                'the container is not (only) in cleanup; %s' % (
                    self._tag(cont), self._describe()))

    # -- operations ------------------------------------------------------------

    def _enqueue(self, kind, name):
        if self.queue and self.queue[-1] == (kind, name):
            self.stats.count('events_coalesced')
            return
        self.queue.append((kind, name))

    def _new_identity(self, inst, reuse, dt_us):
        """(inode, ctime in us) of a cache file created now."""
        self.clock_us += max(1, int(dt_us))
        if reuse and self.free_inos:
            ino = self.free_inos.pop()
            self.stats.count('inode_reused')
        else:
            ino = self.next_ino
            self.next_ino += 1
        # gen_uniqueid keeps the inode and the low 13 bits of the ctime in
        # microseconds: with a reused inode, one re-creation in 8192 gets the
        # name of an earlier generation on ANY tree.  That weakness is not
        # claimed here: such a ctime is moved on by a few microseconds.
        while any(old_ino == ino and
                  (self.clock_us - old_us + 2) % 8192 <= 4
                  for _g, old_ino, old_us, _n in self.idents.get(inst, [])):
            self.clock_us += 17
            self.stats.count('ctime_nudged_off_8192us_collision')
        return ino, self.clock_us

    def _manifest_body(self, inst, okay, extra):
        """What eventmgr caches: the scheduled manifest + placement data +
        task.  `extra` adds keys that the runtime manifest itself produces
        (a manifest scheduled from a dump of some container's app.json /
        state): they must not change which container the entry denotes."""
        body = {
            'proid': inst.split('.')[0],
            'environment': 'dev' if okay else 'no-such-environment',
            'services': [{'name': 'web', 'command': '/bin/sleep 5',
                          'restart': {'limit': 3, 'interval': 60}}],
            'cpu': '10%', 'memory': '100M', 'disk': '100M',
            'endpoints': [{'name': 'http', 'port': 8000}],
            'task': inst.split('#')[1],
        }
        other = INSTANCES[(INSTANCES.index(inst) + 1) % len(INSTANCES)]
        if extra in (1, 3):
            body['uniqueid'] = '0000rQzY1dX3a'
        if extra in (2, 3):
            body['name'] = other
            body['app'] = other.split('#')[0]
        if extra == 3:
            body.update({
                'type': 'native', 'cell': 'othercell', 'system_services': [],
                'zookeeper': 'zookeeper://bar@elsewhere:2181/treadmill',
                'shared_network': False, 'shared_ip': False, 'archive': [],
                'vring': {'cells': []}, 'passthrough': [],
                'ephemeral_ports': {'tcp': 0, 'udp': 0},
            })
        if extra:
            self.stats.count('put_with_runtime_keys')
        return body

    def op_put(self, idx, okay, reuse=0, dt_us=1000457, extra=0):
        inst = INSTANCES[idx % len(INSTANCES)]
        path = self._p('cache', inst)
        if os.path.exists(path):
            if os.path.exists(self._p('cache', READY)):
                return False
            self.stats.count('op:rewrite')
        elif ('D', inst) in self.queue:
            # evicted and placed again before the delete event was handled
            self.stats.count('replaced_with_delete_queued')
            if self.active and self.links('running').get(inst):
                self.replaced_backlog = True
        ino, ctime_us = self._new_identity(inst, reuse, dt_us)
        manifest = self._manifest_body(inst, okay, extra)
        manifest.update({'gen': self.next_gen, 'ok': bool(okay),
                         'ino': ino, 'ctime_us': ctime_us})
        self.next_gen += 1
        fs.write_safe(path, lambda f: json.dump(manifest, f),
                      prefix='.%s-' % inst, mode='w', permission=0o644)
        if inst in self.ino_of:       # rewrite: the old file is gone now
            self.free_inos.append(self.ino_of[inst])
        self.ino_of[inst] = ino
        # statistics only: does this generation get the name of an earlier one?
        name = appcfg.eventfile_unique_name(path)
        earlier = self.idents.setdefault(inst, [])
        if any(name == old for _g, _i, _u, old in earlier):
            self.stats.count('name_collisions')
            self.name_collision = True
        if any(old_ino == ino and old_us // 1000000 == ctime_us // 1000000
               for _g, old_ino, old_us, _n in earlier):
            self.stats.count('same_inode_same_second')
        earlier.append((manifest['gen'], ino, ctime_us, name))
        self._enqueue('C', inst)
        return True

    def op_del(self, idx):
        inst = INSTANCES[idx % len(INSTANCES)]
        path = self._p('cache', inst)
        if not os.path.exists(path):
            return False
        os.unlink(path)
        self.free_inos.append(self.ino_of.pop(inst))
        self._enqueue('D', inst)
        return True

    def op_ready(self, flag):
        path = self._p('cache', READY)
        if flag:
            kind = 'M' if os.path.exists(path) else 'C'
            with open(path, 'w'):
                pass
            self._enqueue(kind, READY)
        else:
            if not os.path.exists(path):
                return False
            fs.rm_safe(path)
            self._enqueue('D', READY)
        return True

    def op_deliver(self, count):
        if not self.queue:
            return False
        for _ in range(min(int(count), 99)):
            if not self.queue:
                break
            self._deliver_one()
        return True

    def _deliver_one(self):
        kind, name = self.queue.pop(0)
        path = self._p('cache', name)
        cache_before = set(os.listdir(self._p('cache')))
        running_before = self.links('running')
        had_cleanup = bool(self.links('cleanup'))
        handed_before = set(self.handed)
        active_before = self.active
        if name == READY:
            self.active = kind != 'D'
        # a synchronisation is due when a manager that has not seen the cache
        # ready (or saw it withdrawn) is told that it is ready
        synced = name == READY and kind != 'D' and not active_before
        handler = {'C': self.mgr._on_created,    # pylint: disable=W0212
                   'D': self.mgr._on_deleted,    # pylint: disable=W0212
                   'M': self.mgr._on_modified}[kind]   # pylint: disable=W0212
        if kind == 'C' and name != READY and active_before and \
                name not in running_before:
            # created event of an entry whose container a synchronisation
            # already configured and which died since
            entry = self.cache().get(name)
            cur = self.by_gen.get((name, entry['gen'])) if entry else None
            if cur in self.dead and os.path.isdir(self._p('apps', cur)):
                self.stats.count('late_created_event_on_dead_container')
                if cur not in self.flagged:
                    self.late_created_flagless = True
        configured_before = set(self.configured_gens)
        handler(path)
        self.stats.count('event:' + kind)
        # what the manager itself removed from the cache is seen by inotify
        for gone in sorted(cache_before - set(os.listdir(self._p('cache')))):
            if gone in self.ino_of:
                self.free_inos.append(self.ino_of.pop(gone))
            self._enqueue('D', gone)
        ctx = 'sync' if synced else {'C': 'created-event',
                                     'D': 'deleted-event',
                                     'M': 'modified-event'}[kind]
        self._check_not_restarted(running_before, ctx)
        self._check_links(ctx)
        self._check_kept(running_before, ctx)
        if synced:
            self.n_syncs += 1
            if had_cleanup:
                self.sync_with_cleanup = True
            self.stats.count('syncs')
            self._check_after_sync(handed_before)
        elif kind == 'D' and active_before and name != READY:
            self._check_after_delete(name, running_before)
        elif kind == 'C' and active_before and name != READY and \
                not any(queued == name for _k, queued in self.queue):
            # (with further events of the instance queued this one is stale)
            self._check_after_create(name, configured_before)

    def _flag(self, cont, kind):
        if kind in ('pid1', 'killed'):
            # pid1: 'aborted' is written by the monitor action itself
            # (signal 6).  killed: the container's supervised process died of
            # another signal; nothing writes exitinfo (MonitorContainerDown,
            # service exits only), aborted (SIGABRT only) or oom (cgroup
            # service only), so no flag file exists.
            return
        with open(self._p('apps', cont, 'data', kind), 'w'):
            pass
        self.flagged.add(cont)

    def _tombstone(self, inst, kind):
        cont = self.links('running').get(inst)
        action = monitor.MonitorContainerCleanup(self.mgr.tm_env)
        action.execute({
            'id': inst,
            'signal': {'pid1': 6, 'killed': 9}.get(kind, 0),
            'return_code': 0, 'timestamp': 1.0,
        })
        if cont is not None:
            self.dead.add(cont)
            if kind == 'pid1':
                self.flagged.add(cont)
            if cont not in self.flagged:
                self.stats.count('flagless_deaths')

    def op_finish(self, idx, kind):
        inst = INSTANCES[idx % len(INSTANCES)]
        cont = self.links('running').get(inst)
        if cont is None or not os.path.isdir(self._p('apps', cont)):
            return False
        self._flag(cont, kind)
        self.pending_tomb.pop(inst, None)
        self._tombstone(inst, kind)
        self._check_links('monitor')
        return True

    def op_exit(self, idx, kind):
        inst = INSTANCES[idx % len(INSTANCES)]
        cont = self.links('running').get(inst)
        if cont is None or not os.path.isdir(self._p('apps', cont)) \
                or kind == 'pid1':
            return False
        self._flag(cont, kind)
        self.pending_tomb[inst] = [cont, kind]
        return True

    def op_tomb(self, idx):
        inst = INSTANCES[idx % len(INSTANCES)]
        cont, kind = self.pending_tomb.pop(inst, None) or (None, None)
        if cont is None:
            return False
        if self.links('running').get(inst) != cont:
            self.stats.count('tombstone_dropped')
            return False
        self._tombstone(inst, kind)
        self._check_links('monitor')
        return True

    def op_cleanup(self, idx):
        cleaning = self.links('cleanup')
        if not cleaning:
            return False
        name = sorted(cleaning)[idx % len(cleaning)]
        tm_cleanup.Cleanup(self.mgr.tm_env).invoke('linux', name)
        cont = cleaning[name]
        if not os.path.exists(self._p('apps', cont)):
            # nothing on disk remembers this container any more: a later
            # directory of the same name is a new container
            self.flagged.discard(cont)
            self.dead.discard(cont)
            self.handed.discard(cont)
        if os.path.lexists(self._p('cleanup', name)):
            raise HarnessError('cleanup link survived Cleanup.invoke')
        self._check_links('cleanup-service')
        return True

    def op_restart(self):
        self._new_manager()
        return True

    def op_reboot(self):
        for which in ('running', 'cleanup'):
            for name in os.listdir(self._p(which)):
                fs.rm_safe(self._p(which, name))
        fs.rm_safe(self._p('cache', READY))
        self.pending_tomb.clear()
        # The reboot killed every container without leaving a flag file; a
        # container that had been killed shortly before is in exactly the
        # same state on disk (no flag, no link).  Restarting those whose cache
        # entry is still there is what _synchronize is meant to do ("Added
        # existing app"), so only flag files survive a reboot as "finished".
        for cont in sorted(self.dead - self.flagged):
            self.stats.count('flagless_dead_forgotten_at_reboot')
        self.dead &= self.flagged
        self.handed.clear()
        self._new_manager()
        return True

    # -- driver ----------------------------------------------------------------

    def run(self):
        for op in self.ops:
            func = getattr(self, 'op_' + op[0])
            done = func(*op[1:])
            self.stats.count('op:' + op[0] if done else 'op_skipped')
            if done and not self.queue and self.active:
                self._check_quiescent()
        return self.two_generations or self.sync_with_cleanup


def run_case(case, stats):
    """Execute one case; returns True iff it was non-trivial."""
    with NodeSim(case, stats) as sim:
        nontrivial = sim.run()
        if sim.two_generations:
            stats.count('class:two-generations-on-disk')
        if sim.sync_with_cleanup:
            stats.count('class:sync-while-cleanup-outstanding')
        if sim.late_created_flagless:
            stats.count('class:late-created-event-on-flagless-dead-container')
        if sim.name_collision:
            stats.count('class:two-generations-with-one-container-name')
        if sim.replaced_backlog:
            stats.count('class:replaced-while-running-delete-still-queued')
        if sim.n_syncs >= 2:
            stats.count('class:resync')
        return nontrivial
