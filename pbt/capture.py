"""Observation wrappers around Cell.schedule / Cell._find_placements.

Installed once per process (class level, observing only). While a recorder is
active every scheduling cycle produces a CycleInfo that is handed to
recorder.on_cycle(info). The recorder must provide .clock (VClock) and may
provide .server_index() -> {name: Server}.
"""

from treadmill import scheduler

from pbt.run import Violation

_RECORDER = [None]
_CURRENT = [None]
_ORIG_FIND = scheduler.Cell._find_placements  # pylint: disable=W0212
_ORIG_SCHEDULE = scheduler.Cell.schedule


def where(err):
    """Innermost treadmill frame of an exception (function name)."""
    tback = err.__traceback__
    name = '?'
    while tback is not None:
        fname = tback.tb_frame.f_code.co_filename
        if '/treadmill/' in fname:
            name = tback.tb_frame.f_code.co_name
        tback = tback.tb_next
    return name


def walk_servers(node, out=None):
    """Collect Server leaves by walking the tree (not Cell.members())."""
    if out is None:
        out = {}
    for child in node.children:
        if child is None:
            continue
        if isinstance(child, scheduler.Server):
            out[child.name] = child
        else:
            walk_servers(child, out)
    return out


class CycleInfo(object):
    """What one scheduling cycle looked like from the outside."""

    def __init__(self):
        self.c0 = None
        self.c1 = None
        self.before = {}
        self.after = {}
        self.queues = []      # [(label, [(name, rank, had_server)])]
        self.server_state_before = {}
        self.result = None
        self.flags_before = {}
        self.failed = None


def snapshot(cell):
    snap = {}
    for name, app in cell.apps.items():
        snap[name] = (app.server, app.placement_expiry, app.identity)
    return snap


def _find_wrapper(self, queue, servers, *args, **kwargs):
    info = _CURRENT[0]
    if info is not None:
        label = None
        for app in queue:
            if app.allocation is not None:
                label = app.allocation.label
                break
        info.queues.append((label, [
            (app.name, app.final_rank, app.server) for app in queue
        ]))
    return _ORIG_FIND(self, queue, servers, *args, **kwargs)


def _schedule_wrapper(self, *args, **kwargs):
    rec = _RECORDER[0]
    if rec is None or _CURRENT[0] is not None:
        return _ORIG_SCHEDULE(self, *args, **kwargs)
    info = CycleInfo()
    servers = walk_servers(self)
    info.before = snapshot(self)
    info.server_state_before = {
        name: srv.get_state() for name, srv in servers.items()
    }
    info.flags_before = {
        name: {
            'blacklisted': app.blacklisted, 'renew': app.renew,
            'unschedule': app.unschedule, 'priority': app.priority,
            'evicted': app.evicted,
        } for name, app in self.apps.items()
    }
    info.c0 = rec.clock.peek()
    _CURRENT[0] = info
    try:
        info.result = _ORIG_SCHEDULE(self, *args, **kwargs)
    finally:
        _CURRENT[0] = None
    info.c1 = rec.clock.peek()
    info.after = snapshot(self)
    rec.on_cycle(info)
    return info.result


scheduler.Cell._find_placements = _find_wrapper  # pylint: disable=W0212
scheduler.Cell.schedule = _schedule_wrapper


def activate(recorder):
    _RECORDER[0] = recorder
    _CURRENT[0] = None


def deactivate():
    _RECORDER[0] = None
    _CURRENT[0] = None
