"""Regenerates MANIFEST.json from the property modules (run by hand)."""
import importlib
import json
import os
import sys

HERE = os.path.dirname(os.path.abspath(__file__))
sys.path.insert(0, HERE)
sys.path.insert(0, '/repo/lib/python')

ALL = ['C%02d' % i for i in range(1, 21)]

NOT_YET = {}


def main():
    checks = []
    not_applicable = []
    for pid in ALL:
        try:
            mod = importlib.import_module('pbt.props.%s' % pid.lower())
        except ImportError as err:
            if 'pbt.props' not in str(err):
                raise
            not_applicable.append({
                'property_id': pid,
                'reason': NOT_YET.get(
                    pid, 'check not built yet (planned, see DESIGN.md section 4); '
                    'not claimed until it exists'),
            })
            continue
        checks.append({
            'property_id': pid,
            'quick_cmd': './check %s quick' % pid,
            'thorough_cmd': './check %s thorough' % pid,
            'evidence_file': 'evidence/%s.json' % pid,
            'replay_cmd_template': './check %s --replay {path}' % pid,
            'engine': getattr(mod, 'ENGINE', 'pbt'),
            'level_claimed': {
                'category': mod.LEVEL,
                'text': getattr(mod, 'LEVEL_TEXT', mod.RULE),
                'design_ref': 'DESIGN.md section 4, %s' % pid,
            },
            'level_note': '; '.join(list(mod.ASSUMPTIONS) +
                                    ['trusted: ' + ', '.join(
                                        getattr(mod, 'TRUSTED', []))]),
            'technique': getattr(
                mod, 'TECHNIQUE',
                'property-based testing (Hypothesis generated histories, '
                'explicit oracle recomputed from the leaves, shrinking to a '
                'JSON replay)'),
        })
    manifest = {
        'version': 1,
        'setup_cmd': './setup.sh',
        'hooks': {
            'guard': 'TREADMILL_VERIF',
            'enable': 'no source hooks: the harness replaces module '
                      'attributes (time, zk client, fs calls) from outside; '
                      'checks run /repo/lib/python directly via PYTHONPATH',
            'baseline_off_cmd': 'cd /repo && /venv/bin/python -m pytest -ra '
                                '-q -p no:cacheprovider --timeout=900 '
                                '--continue-on-collection-errors',
            'source_commits': [],
            'add_only': True,
        },
        'engines': [
            {'name': 'pbt', 'path': 'pbt/',
             'serves_properties': [c['property_id'] for c in checks],
             'kind_free_text': 'Hypothesis-driven generated histories / '
                               'inputs with explicit oracles; sharded over '
                               'processes; JSON replays'},
        ],
        'checks': checks,
        'not_applicable': not_applicable,
        'notes': 'All checks: ./check <id> <quick|thorough>; VERIF_SEED '
                 'selects the generated sample; replays/ holds regression '
                 'inputs; known_findings.json lists fixed and known findings.',
    }
    with open(os.path.join(HERE, 'MANIFEST.json'), 'w') as fh:
        json.dump(manifest, fh, indent=1)
    print('checks:', [c['property_id'] for c in checks])
    print('not claimed:', [c['property_id'] for c in not_applicable])


if __name__ == '__main__':
    main()
